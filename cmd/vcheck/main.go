// vcheck is the driver of the deterministic-simulation checks.
//
//	vcheck <property> quick|thorough   run a check, write evidence, print VIOLATION lines
//	vcheck replay <file>               re-execute a replay file in a fresh process
//	vcheck selftest [props...]         determinism self-test
//	vcheck setup                       build once to warm the caches
//
// Exit status: 0 held (possibly with KNOWN-FINDING lines), 1 violation,
// 2 build failure / harness trouble / watchdog / determinism divergence.
package main

import (
	"bytes"
	"encoding/json"
	"fmt"
	"os"
	"os/exec"
	"path/filepath"
	"runtime"
	"sort"
	"strconv"
	"strings"
	"sync"
	"time"

	"verif/instr"
	"verif/shrink"
)

// verifDir is the directory the driver was started in (./check changes into
// its own directory first): /verif, or a snapshot of it.
var verifDir = func() string {
	if d, err := os.Getwd(); err == nil {
		return d
	}
	return "/verif"
}()

func repoDir() string {
	if d := os.Getenv("VERIF_REPO"); d != "" {
		return d
	}
	return "/repo"
}

type violation struct {
	Prop string `json:"prop"`
	Rule string `json:"rule"`
	Msg  string `json:"msg"`
}

type runResult struct {
	Prop       string         `json:"prop"`
	Scenario   string         `json:"scenario"`
	Seed       uint64         `json:"seed"`
	Run        uint64         `json:"run"`
	Violations []violation    `json:"violations,omitempty"`
	KnownHits  []violation    `json:"known_hits,omitempty"`
	Harness    string         `json:"harness_error,omitempty"`
	Decisions  []int          `json:"decisions,omitempty"`
	NDecisions int            `json:"n_decisions"`
	DecHash    string         `json:"dec_hash"`
	TraceHash  string         `json:"trace_hash"`
	Steps      int            `json:"steps"`
	SimTimeS   float64        `json:"sim_time_s"`
	Stats      map[string]int `json:"stats,omitempty"`
	NonTrivial bool           `json:"nontrivial"`
	Summary    map[string]any `json:"summary,omitempty"`
	Trace      []string       `json:"trace,omitempty"`
}

type workerSummary struct {
	Prop        string            `json:"prop"`
	Seed        uint64            `json:"seed"`
	Worker      int               `json:"worker"`
	Runs        int               `json:"runs"`
	Failures    []runResult       `json:"failures,omitempty"`
	Known       []runResult       `json:"known,omitempty"`
	KnownCount  map[string]int    `json:"known_count,omitempty"`
	Harness     []runResult       `json:"harness_errors,omitempty"`
	Stats       map[string]int    `json:"stats"`
	PerScenario map[string]int    `json:"per_scenario"`
	NonTrivial  int               `json:"nontrivial"`
	DistinctNT  []string          `json:"distinct_nontrivial_hashes"`
	States      []string          `json:"states"`
	SimTimeS    float64           `json:"sim_time_s"`
	Steps       int               `json:"steps"`
	Samples     []runResult       `json:"samples"`
	Hashes      map[string]string `json:"hashes"`
	RacyRuns    int               `json:"racy_runs"`
	ReplayPairs int               `json:"replay_pairs"`
	ReplayDiv   []string          `json:"replay_divergences,omitempty"`
	WallS       float64           `json:"wall_s"`
	Budget      int               `json:"budget_exhausted"`
}

type replayFile struct {
	Prop      string    `json:"prop"`
	Scenario  string    `json:"scenario"`
	Seed      uint64    `json:"seed"`
	Run       uint64    `json:"run"`
	Decisions []int     `json:"decisions"`
	Violation violation `json:"violation"`
	TraceHash string    `json:"trace_hash"`
	Minimized bool      `json:"minimized"`
	Original  int       `json:"original_decisions"`
	Trace     []string  `json:"trace,omitempty"`
	Note      string    `json:"note,omitempty"`
	Tier      string    `json:"tier,omitempty"` // size classes the scenario used (VERIF_TIER of the run)
}

type knownFinding struct {
	Property string `json:"property"`
	Rule     string `json:"rule"`
	Match    string `json:"match"`  // substring of the violation message identifying the specific call site / input
	Status   string `json:"status"` // "open" or "fixed"
	Commit   string `json:"commit,omitempty"`
	What     string `json:"what"`
}

type propMeta struct {
	Real, Stub, Faults []string
	Scenarios          []string
}

func die2(format string, a ...any) {
	fmt.Fprintf(os.Stderr, "vcheck: "+format+"\n", a...)
	os.Exit(2)
}

func goEnv() []string {
	env := os.Environ()
	out := env[:0:0]
	for _, e := range env {
		if strings.HasPrefix(e, "GOFLAGS=") || strings.HasPrefix(e, "GOPROXY=") || strings.HasPrefix(e, "GOSUMDB=") || strings.HasPrefix(e, "GOTOOLCHAIN=") {
			continue
		}
		out = append(out, e)
	}
	// GOSUMDB must stay unset: "off" breaks the switch to the cached toolchain.
	return append(out, "GOFLAGS=-mod=mod", "GOPROXY=off")
}

// build generates the overlay from the current /repo tree and compiles the
// worker binary into dir.
func build(dir string) (bin string, info *instr.Info) {
	t0 := time.Now()
	info, err := instr.Generate(repoDir(), filepath.Join(verifDir, "overlay"), dir)
	if err != nil {
		die2("instrumenter failed: %v", err)
	}
	bin = filepath.Join(dir, "scen.test")
	tags := "verif,all"
	if t := os.Getenv("VERIF_TAGS"); t != "" {
		tags = "verif," + t // development: build only some property files
	}
	args := []string{"test", "-c", "-vet=off", "-tags", tags, "-overlay", info.OverlayJSON, "-o", bin, "./scen"}
	if os.Getenv("VERIF_RACE") != "" {
		args = append(args[:2], append([]string{"-race"}, args[2:]...)...)
	}
	cmd := exec.Command("go", args...)
	cmd.Dir = verifDir
	cmd.Env = goEnv()
	var out bytes.Buffer
	cmd.Stdout, cmd.Stderr = &out, &out
	if err := cmd.Run(); err != nil {
		fmt.Fprintln(os.Stderr, out.String())
		die2("build of the harness against %s failed: %v", repoDir(), err)
	}
	fmt.Printf("build: %d lock sites rewritten in %d files, %.1fs\n", info.LockSites, info.Files, time.Since(t0).Seconds())
	return bin, info
}

type workerRun struct {
	idx    int
	out    string
	status string
	stderr string
	err    error
	sum    *workerSummary
}

func startWorker(bin, dir string, prop string, env map[string]string, tag string) *workerRun {
	w := &workerRun{out: filepath.Join(dir, tag+".json"), status: filepath.Join(dir, tag+".status"), stderr: filepath.Join(dir, tag+".err")}
	cmd := exec.Command(bin, "-test.run", "^TestWorker$", "-test.timeout", "0")
	cmd.Dir = dir
	e := append(os.Environ(), "VERIF_PROP="+prop, "VERIF_OUT="+w.out, "VERIF_STATUS="+w.status, "VERIF_KNOWN_FILE="+filepath.Join(verifDir, "known_findings.json"))
	for k, v := range env {
		e = append(e, k+"="+v)
	}
	cmd.Env = e
	// a crashed worker writes no result: make sure no stale one is read
	os.Remove(w.out)
	os.Remove(w.status)
	ef, _ := os.Create(w.stderr)
	cmd.Stdout, cmd.Stderr = ef, ef
	w.err = cmd.Run()
	ef.Close()
	return w
}

func readJSON(path string, v any) error {
	data, err := os.ReadFile(path)
	if err != nil {
		return err
	}
	return json.Unmarshal(data, v)
}

func tail(path string, n int) string {
	data, _ := os.ReadFile(path)
	lines := strings.Split(string(data), "\n")
	if len(lines) > n {
		lines = lines[len(lines)-n:]
	}
	return strings.Join(lines, "\n")
}

func head(path string, n int) string {
	data, _ := os.ReadFile(path)
	lines := strings.Split(string(data), "\n")
	if len(lines) > n {
		lines = lines[:n]
	}
	return strings.Join(lines, "\n")
}

// crashSignature extracts a stable signature from a crashed worker's stderr:
// the panic line plus the first repository frame.
func crashSignature(stderr string) string {
	data, _ := os.ReadFile(stderr)
	lines := strings.Split(string(data), "\n")
	sig := ""
	for i, l := range lines {
		if strings.HasPrefix(l, "panic:") || strings.HasPrefix(l, "fatal error:") {
			sig = strings.TrimSpace(l)
			// strip addresses
			if j := strings.Index(sig, "[recovered]"); j >= 0 {
				sig = sig[:j]
			}
			for _, m := range lines[i+1:] {
				if strings.Contains(m, "go-libp2p-kad-dht") && strings.Contains(m, "(") && !strings.HasPrefix(m, "\t") {
					f := m
					if k := strings.LastIndex(f, "("); k > 0 {
						f = f[:k]
					}
					sig += " @ " + strings.TrimSpace(f)
					break
				}
			}
			break
		}
	}
	if sig == "" {
		sig = "process died without a panic line"
	}
	if len(sig) > 300 {
		sig = sig[:300]
	}
	return sig
}

const wedgeSig = "wedge: the run never became quiescent within its wall-clock budget (a goroutine spins, or blocks on something the scheduler cannot see, e.g. a mutex inside a dependency)"

// deathSignature classifies a worker process that ended without a result:
// the watchdog fired (wedge) or the process was killed by a panic (crash).
func deathSignature(w *workerRun) string {
	st, _ := os.ReadFile(w.status)
	if len(st) > 0 && st[0] == 'W' {
		return wedgeSig
	}
	return crashSignature(w.stderr)
}

func loadKnown() []knownFinding {
	var k struct {
		Findings []knownFinding `json:"findings"`
	}
	_ = readJSON(filepath.Join(verifDir, "known_findings.json"), &k)
	return k.Findings
}

func matchKnown(known []knownFinding, v violation) *knownFinding {
	for i := range known {
		k := &known[i]
		if k.Status != "open" || k.Property != v.Prop || k.Rule != v.Rule {
			continue
		}
		if k.Match == "" || strings.Contains(v.Msg, k.Match) {
			return k
		}
	}
	return nil
}

func main() {
	if len(os.Args) < 2 {
		die2("usage: vcheck <property> quick|thorough | replay <file> | selftest | setup")
	}
	switch os.Args[1] {
	case "setup":
		dir, _ := os.MkdirTemp("", "vcheck-setup-")
		defer os.RemoveAll(dir)
		build(dir)
		fmt.Println("setup ok")
	case "build":
		// debugging aid: build the worker binary into a directory and keep it
		if len(os.Args) < 3 {
			die2("usage: vcheck build <dir>")
		}
		os.MkdirAll(os.Args[2], 0o755)
		bin, _ := build(os.Args[2])
		fmt.Println(bin)
	case "replay":
		if len(os.Args) < 3 {
			die2("usage: vcheck replay <file>")
		}
		os.Exit(cmdReplay(os.Args[2]))
	case "selftest":
		os.Exit(cmdSelftest(os.Args[2:]))
	default:
		tier := "quick"
		if len(os.Args) >= 3 {
			tier = os.Args[2]
		}
		if t := os.Getenv("VERIF_TIER"); t != "" && len(os.Args) < 3 {
			tier = t
		}
		os.Exit(cmdCheck(os.Args[1], tier))
	}
}

func seedFromEnv() uint64 {
	if v := os.Getenv("VERIF_SEED"); v != "" {
		if n, err := strconv.ParseUint(v, 10, 64); err == nil {
			return n
		}
		if n, err := strconv.ParseInt(v, 10, 64); err == nil {
			return uint64(n)
		}
	}
	return 1
}

func envInt(name string, def int) int {
	if v := os.Getenv(name); v != "" {
		if n, err := strconv.Atoi(v); err == nil {
			return n
		}
	}
	return def
}

// runReplay executes one replay file in a fresh worker process.
func runReplay(bin, dir, file string, trace bool, tag string) (res *runResult, crashed bool, sig string, w *workerRun) {
	var rf replayFile
	if err := readJSON(file, &rf); err != nil {
		die2("cannot read replay file %s: %v", file, err)
	}
	env := map[string]string{"VERIF_REPLAY": file}
	if trace {
		env["VERIF_TRACE"] = "1"
	}
	w = startWorker(bin, dir, rf.Prop, env, tag)
	var r runResult
	if err := readJSON(w.out, &r); err != nil {
		return nil, true, deathSignature(w), w
	}
	return &r, false, "", w
}

func cmdReplay(file string) int {
	if abs, err := filepath.Abs(file); err == nil {
		file = abs
	}
	dir, _ := os.MkdirTemp("", "vcheck-replay-")
	defer os.RemoveAll(dir)
	bin, _ := build(dir)
	var rf replayFile
	if err := readJSON(file, &rf); err != nil {
		die2("cannot read %s: %v", file, err)
	}
	if rf.Tier != "" {
		os.Setenv("VERIF_TIER", rf.Tier)
	} else {
		os.Setenv("VERIF_TIER", "quick")
	}
	res, crashed, sig, w := runReplay(bin, dir, file, true, "replay")
	if crashed {
		fmt.Printf("replay: worker process died: %s\n", sig)
		fmt.Println(head(w.stderr, 40))
		if rf.Violation.Rule == "crash" || rf.Violation.Rule == "wedge" {
			fmt.Printf("VIOLATION property=%s replay=%s\n", rf.Prop, file)
			return 1
		}
		return 2
	}
	for _, l := range res.Trace {
		fmt.Println(l)
	}
	if res.Harness != "" {
		fmt.Println("harness error:", res.Harness)
		return 2
	}
	fmt.Printf("replay: trace_hash=%s (recorded %s) decisions=%d\n", res.TraceHash, rf.TraceHash, len(res.Decisions))
	if len(res.Violations) > 0 {
		for _, v := range res.Violations {
			fmt.Printf("  %s/%s: %s\n", v.Prop, v.Rule, v.Msg)
		}
		fmt.Printf("VIOLATION property=%s replay=%s\n", rf.Prop, file)
		return 1
	}
	fmt.Println("replay: no violation")
	return 0
}

type tierCfg struct {
	budgetS  int
	workers  int
	detRuns  int
	shrinkS  int
	maxFinds int
}

func tierFor(tier string) tierCfg {
	c := tierCfg{budgetS: 40, workers: runtime.NumCPU(), detRuns: 150, shrinkS: 45, maxFinds: 3}
	if tier == "thorough" {
		c = tierCfg{budgetS: 1200, workers: runtime.NumCPU(), detRuns: 1500, shrinkS: 180, maxFinds: 6}
	}
	c.budgetS = envInt("VERIF_BUDGET_S", c.budgetS)
	c.workers = envInt("VERIF_WORKERS", c.workers)
	return c
}

func cmdCheck(prop, tier string) int {
	t0 := time.Now()
	seed := seedFromEnv()
	tc := tierFor(tier)
	// scenarios read VERIF_TIER to pick their size classes; every child process inherits it
	os.Setenv("VERIF_TIER", tier)
	dir, _ := os.MkdirTemp("", "vcheck-"+prop+"-")
	defer os.RemoveAll(dir)
	bin, info := build(dir)

	meta := loadMeta(bin, dir, prop)
	if len(meta.Scenarios) == 0 {
		die2("no scenario registered for %s", prop)
	}

	// ---- exploration ----
	var wg sync.WaitGroup
	runs := make([]*workerRun, tc.workers)
	for i := 0; i < tc.workers; i++ {
		wg.Add(1)
		go func(i int) {
			defer wg.Done()
			env := map[string]string{
				"VERIF_SEED": strconv.FormatUint(seed, 10), "VERIF_WORKER": strconv.Itoa(i), "VERIF_NWORKERS": strconv.Itoa(tc.workers),
				"VERIF_BUDGET_S": strconv.Itoa(tc.budgetS),
			}
			runs[i] = startWorker(bin, dir, prop, env, fmt.Sprintf("w%02d", i))
			runs[i].idx = i
		}(i)
	}
	wg.Wait()

	type finding struct {
		v      violation
		rf     replayFile
		crash  bool
		known  bool
		worker int
	}
	knownRuns := map[string]int{}
	var finds []finding
	agg := workerSummary{Stats: map[string]int{}, PerScenario: map[string]int{}, Hashes: map[string]string{}}
	distinct := map[string]struct{}{}
	states := map[string]struct{}{}
	var samples []runResult
	harnessTrouble := []string{}

	for _, w := range runs {
		var sum workerSummary
		if err := readJSON(w.out, &sum); err != nil {
			st, _ := os.ReadFile(w.status)
			// the process died: a panic on a goroutine of the system under test,
			// or the per-run watchdog (a run that never became quiescent). Both are
			// re-executed from the same seed in fresh processes below and reported
			// only if they reproduce identically.
			f := strings.Fields(string(st))
			if len(f) < 3 || (f[0] != "R" && f[0] != "W") {
				harnessTrouble = append(harnessTrouble, fmt.Sprintf("worker %d died before its first run: %v\n%s", w.idx, w.err, tail(w.stderr, 40)))
				continue
			}
			run, _ := strconv.ParseUint(f[1], 10, 64)
			sig := deathSignature(w)
			rule := "crash"
			if sig == wedgeSig {
				rule = "wedge"
			}
			finds = append(finds, finding{v: violation{Prop: prop, Rule: rule, Msg: sig}, crash: true, worker: w.idx,
				rf: replayFile{Prop: prop, Scenario: f[2], Seed: seed, Run: run, Tier: tier}})
			continue
		}
		w.sum = &sum
		agg.Runs += sum.Runs
		agg.NonTrivial += sum.NonTrivial
		agg.SimTimeS += sum.SimTimeS
		agg.Steps += sum.Steps
		agg.ReplayPairs += sum.ReplayPairs
		agg.RacyRuns += sum.RacyRuns
		agg.ReplayDiv = append(agg.ReplayDiv, sum.ReplayDiv...)
		agg.Budget += sum.Budget
		for k, v := range sum.Stats {
			agg.Stats[k] += v
		}
		for k, v := range sum.PerScenario {
			agg.PerScenario[k] += v
		}
		for _, h := range sum.DistinctNT {
			distinct[h] = struct{}{}
		}
		for _, h := range sum.States {
			states[h] = struct{}{}
		}
		for k, v := range sum.Hashes {
			agg.Hashes[k] = v
		}
		if len(samples) < 4 {
			samples = append(samples, sum.Samples...)
		}
		for _, h := range sum.Harness {
			harnessTrouble = append(harnessTrouble, fmt.Sprintf("worker %d run %d (%s): %s", w.idx, h.Run, h.Scenario, h.Harness))
		}
		for _, f := range sum.Known {
			for _, v := range f.KnownHits {
				finds = append(finds, finding{v: v, worker: w.idx, known: true, rf: replayFile{Prop: prop, Scenario: f.Scenario, Seed: f.Seed, Run: f.Run, Decisions: f.Decisions, Violation: v, TraceHash: f.TraceHash, Tier: tier}})
				break
			}
		}
		for r, n := range sum.KnownCount {
			knownRuns[r] += n
		}
		for _, f := range sum.Failures {
			for _, v := range f.Violations {
				finds = append(finds, finding{v: v, worker: w.idx, rf: replayFile{Prop: prop, Scenario: f.Scenario, Seed: f.Seed, Run: f.Run, Decisions: f.Decisions, Violation: v, TraceHash: f.TraceHash, Tier: tier}})
				break // first violation of the run names the class
			}
		}
	}

	// ---- cross-process determinism: re-run a sample under another GOMAXPROCS ----
	detPairs, detDiv := 0, []string{}
	if len(harnessTrouble) == 0 {
		for pass, gmp := range []string{"1", "4"} {
			env := map[string]string{
				"VERIF_SEED": strconv.FormatUint(seed, 10), "VERIF_WORKER": strconv.Itoa(pass), "VERIF_NWORKERS": strconv.Itoa(tc.workers),
				"VERIF_BUDGET_S": "600", "VERIF_MAXRUNS": strconv.Itoa(tc.detRuns), "VERIF_REPLAY_EVERY": "0", "GOMAXPROCS": gmp,
				"VERIF_HASH_SAMPLE": strconv.Itoa(tc.detRuns),
			}
			w := startWorker(bin, dir, prop, env, "det"+gmp)
			var sum workerSummary
			if err := readJSON(w.out, &sum); err != nil {
				continue // a crash here is reported by the exploration pass as well
			}
			for k, v := range sum.Hashes {
				if o, ok := agg.Hashes[k]; ok {
					detPairs++
					if o != v {
						detDiv = append(detDiv, fmt.Sprintf("run %s: trace %s (16 procs) vs %s (GOMAXPROCS=%s)", k, o, v, gmp))
					}
				}
			}
		}
	}
	detDiv = append(detDiv, agg.ReplayDiv...)
	detPairs += agg.ReplayPairs

	// ---- shrink, confirm and classify findings ----
	known := loadKnown()
	sort.SliceStable(finds, func(i, j int) bool {
		// new violations first: known findings must not use up the maxFinds
		// slots and thereby hide a real violation (C16 has five known classes)
		if finds[i].known != finds[j].known {
			return !finds[i].known
		}
		if finds[i].v.Rule != finds[j].v.Rule {
			return finds[i].v.Rule < finds[j].v.Rule
		}
		return finds[i].rf.Run < finds[j].rf.Run
	})
	reported := 0
	knownHit := map[string]bool{}
	seenClass := map[string]bool{}
	newClasses := 0
	crashTrouble := map[string]string{} // crash class -> message of the last attempt that did not reproduce
	crashConfirmed := map[string]bool{}
	var violationLines []string
	os.MkdirAll(filepath.Join(verifDir, "replays"), 0o755)
	for _, f := range finds {
		class := f.v.Rule
		if f.crash {
			class = "crash:" + f.v.Msg
		}
		if seenClass[class] || crashConfirmed[class] {
			continue
		}
		// known findings are all reported (cheaply: a short shrink); only new
		// violation classes are limited, each costs a full shrink
		if !f.known && newClasses >= tc.maxFinds {
			continue
		}
		if !f.known {
			newClasses++
		}
		seenClass[class] = true
		rf := f.rf
		rf.Violation = f.v
		path := filepath.Join(verifDir, "replays", fmt.Sprintf("%s-%d-%d-%s.json", prop, seed, rf.Run, sanitize(f.v.Rule)))
		if f.crash {
			rf2, ok := shrinkCrash(bin, dir, rf, f.v.Msg, tc.shrinkS)
			if !ok {
				// Not reproduced. If another worker died the same way in another
				// run, try that one before calling it harness trouble (a crash
				// behind a coin inside the code under test - Racy scenarios - is
				// more likely in some runs than in others).
				crashTrouble[class] = fmt.Sprintf("worker %d died in run %d (%s) but the crash did not reproduce from the same seed: %s\n%s", f.worker, rf.Run, rf.Scenario, f.v.Msg, tail(runs[f.worker].stderr, 40))
				delete(seenClass, class)
				if !f.known {
					newClasses--
				}
				continue
			}
			delete(crashTrouble, class)
			crashConfirmed[class] = true
			rf = rf2
		} else {
			raw := filepath.Join(dir, "raw.json")
			writeJSON(raw, rf)
			shrinkS := tc.shrinkS
			if f.known {
				shrinkS = 8
			}
			w := startWorker(bin, dir, prop, map[string]string{"VERIF_SHRINK": raw, "VERIF_SHRINK_S": strconv.Itoa(shrinkS)}, "shrink")
			var min replayFile
			if err := readJSON(w.out, &min); err == nil && len(min.Decisions) > 0 {
				// (the shrink worker does not know the tier: without it a replay of the
				// shrunk file would use the quick size classes and read the recorded
				// decisions differently)
				min.Tier = rf.Tier
				rf = min
			}
		}
		writeJSON(path, rf)
		// the final file must reproduce in a fresh process, twice, identically
		confirm := func(n int, tag string) (hits int, sameTrace bool) {
			var hashes []string
			for k := 0; k < n; k++ {
				res, crashed, sig, _ := runReplay(bin, dir, path, false, fmt.Sprintf("%s%d", tag, k))
				if f.crash {
					if crashed && sig == f.v.Msg {
						hits++
					}
					continue
				}
				if crashed || res == nil {
					continue
				}
				for _, v := range append(res.Violations, res.KnownHits...) {
					if v.Rule == f.v.Rule {
						hits++
						hashes = append(hashes, res.TraceHash)
						break
					}
				}
			}
			sameTrace = true
			for _, h := range hashes {
				sameTrace = sameTrace && h == hashes[0]
			}
			return
		}
		hits, same := confirm(2, "confirm")
		if hits < 2 || !same {
			// Not exactly reproducible. The recorded schedule is replayed exactly,
			// so the difference comes from a choice the Go runtime makes inside
			// the code under test (a select with several ready cases, goroutines
			// racing for a lock that is not a scheduler seam). Fall back to the
			// unshrunk schedule and replay it several times: a violation that
			// shows up again at least once is reported, with that caveat in the
			// replay file; one that never does is harness trouble.
			orig := f.rf
			orig.Violation = f.v
			if f.crash {
				orig = rf
			}
			if len(orig.Decisions) > 0 {
				writeJSON(path, orig)
				rf = orig
			}
			const tries = 6
			h2, _ := confirm(tries, "reconfirm")
			if h2 == 0 {
				harnessTrouble = append(harnessTrouble, fmt.Sprintf("violation %s/%s (run %d) did not replay from %s in %d attempts: %s", prop, f.v.Rule, rf.Run, path, tries+2, f.v.Msg))
				continue
			}
			rf.Minimized = false
			rf.Note = fmt.Sprintf("NOT exactly reproducible: the violation showed up in %d of %d replays of this schedule in fresh processes. The schedule and every fault are replayed exactly; the outcome additionally depends on a choice the Go runtime makes inside the code under test (e.g. a select with several ready cases), which the simulator does not control. Replay it several times.", h2, tries)
			writeJSON(path, rf)
			fmt.Printf("note: %s/%s replays only intermittently (%d of %d attempts); reported with the unshrunk schedule\n", prop, f.v.Rule, h2, tries)
		}
		if k := matchKnown(known, rf.Violation); k != nil {
			if !knownHit[k.What] {
				fmt.Printf("KNOWN-FINDING: property=%s %s (rule %s; hit in %d runs; replay %s)\n", prop, k.What, k.Rule, knownRuns[k.Rule], path)
			}
			knownHit[k.What] = true
			continue
		}
		reported++
		fmt.Printf("violation: %s rule=%s scenario=%s seed=%d run=%d decisions=%d\n  %s\n", prop, rf.Violation.Rule, rf.Scenario, seed, rf.Run, len(rf.Decisions), rf.Violation.Msg)
		violationLines = append(violationLines, fmt.Sprintf("VIOLATION property=%s replay=%s", prop, path))
	}

	for _, class := range sortedKeys(crashTrouble) {
		harnessTrouble = append(harnessTrouble, crashTrouble[class])
	}

	// ---- evidence ----
	wall := time.Since(t0).Seconds()
	faults := map[string]int{}
	probes := map[string]int{}
	for k, v := range agg.Stats {
		if strings.HasPrefix(k, "probe_") {
			probes[k] = v
		} else {
			faults[k] = v
		}
	}
	var zeroProbes []string
	for _, fk := range meta.Faults {
		if _, ok := agg.Stats[fk]; !ok {
			zeroProbes = append(zeroProbes, fk)
			if strings.HasPrefix(fk, "probe_") {
				probes[fk] = 0
			} else {
				faults[fk] = 0
			}
		}
	}
	var sampleOut []any
	for _, s := range samples {
		sampleOut = append(sampleOut, map[string]any{"scenario": s.Scenario, "seed": s.Seed, "run": s.Run, "summary": s.Summary, "steps": s.Steps,
			"sim_time_s": s.SimTimeS, "faults_and_probes": s.Stats, "decisions_prefix": s.Decisions, "n_decisions": s.NDecisions, "trace_hash": s.TraceHash})
	}
	if len(sampleOut) == 0 {
		sampleOut = append(sampleOut, map[string]any{"note": "no non-trivial run completed"})
	}
	explS := float64(tc.budgetS)
	ev := map[string]any{
		"property_id": prop, "tier": tier, "seed": int64(seed), "level": "exploration", "wall_s": wall,
		"violations": reported,
		"coverage": map[string]any{
			"evaluations":         agg.Runs,
			"distinct_nontrivial": len(distinct),
			"rule": "one evaluation = one simulated run (configuration, workload, schedule and faults all drawn from the run's seed) of one of the scenarios " +
				strings.Join(meta.Scenarios, ", ") + "; a run is non-trivial when the scenario's own rule holds (the operation under test made progress AND at least one fault/reordering/cancel fired); distinct = distinct decision-list hashes among non-trivial runs",
			"samples":                    sampleOut,
			"runs_per_scenario":          agg.PerScenario,
			"runs_per_hour":              int(float64(agg.Runs) / explS * 3600),
			"seeds_per_hour":             int(float64(agg.Runs) / explS * 3600),
			"simulated_time_s":           agg.SimTimeS,
			"scheduler_steps":            agg.Steps,
			"faults_fired":               faults,
			"probes_reached":             probes,
			"never_fired_in_this_run":    zeroProbes,
			"distinct_abstract_states":   len(states),
			"distinct_decision_lists_nt": len(distinct),
			"nontrivial_runs":            agg.NonTrivial,
			"racy_scenario_runs":         agg.RacyRuns,
			"step_budget_exhausted_runs": agg.Budget,
			"determinism":                map[string]any{"pairs_compared": detPairs, "divergences": len(detDiv), "method": "same run re-executed from its recorded decision list in-process, and the same seeds re-run in separate processes at GOMAXPROCS 1 and 4; trace hashes compared"},
			"real_components":            meta.Real,
			"stub_components":            meta.Stub,
			"lock_sites_instrumented":    info.LockSites,
			"known_findings_hit":         len(knownHit),
			"known_finding_runs":         knownRuns,
			"workers":                    tc.workers,
			"exploration_budget_s":       tc.budgetS,
		},
		"assumptions": []string{
			"seeded search: a clean batch is evidence, not proof",
			"interleavings are explored at seam calls (RPC, dial, stream, datastore) and at instrumented lock calls, not between arbitrary instructions",
			"testing/synctest fake clock: monotone, no skew",
			"scripted peers / simulated datastore stand in for the network and the disk (see stub_components)",
		},
	}
	// Evidence describes checks of /repo itself. A run against another tree
	// (VERIF_REPO: a scratch worktree with a deliberate change) must not
	// overwrite it; its evidence goes next to the replays instead.
	evDir := filepath.Join(verifDir, "evidence")
	if os.Getenv("VERIF_REPO") != "" {
		evDir = filepath.Join(verifDir, "replays", "foreign-tree-evidence")
	}
	os.MkdirAll(evDir, 0o755)
	writeJSON(filepath.Join(evDir, prop+".json"), ev)

	fmt.Printf("%s %s: %d runs (%d non-trivial, %d distinct), %.0f s simulated, %d steps, %d determinism pairs / %d divergences, wall %.1fs\n",
		prop, tier, agg.Runs, agg.NonTrivial, len(distinct), agg.SimTimeS, agg.Steps, detPairs, len(detDiv), wall)
	if len(zeroProbes) > 0 {
		fmt.Printf("warning: never fired in this batch: %s\n", strings.Join(zeroProbes, ", "))
	}

	// Determinism is a property of the harness, measured on every batch and
	// written to the evidence file. Reported violations do not depend on it
	// (each is confirmed by replays in fresh processes before it is printed).
	// A few diverging pairs - goroutines woken at the same virtual instant and
	// ordered by the Go scheduler, seen at rates around 1 in 10^4 on a loaded
	// machine - are therefore reported but do not fail the check; a rate above
	// the tolerance means a harness bug and is exit 2. VERIF_STRICT_DET=1 (used
	// while developing scenarios) makes every divergence fatal.
	detTol := detPairs / 200
	if detTol < 3 {
		detTol = 3
	}
	if os.Getenv("VERIF_STRICT_DET") != "" {
		detTol = 0
	}
	for i, d := range detDiv {
		if i >= 8 {
			fmt.Fprintf(os.Stderr, "... and %d more divergences\n", len(detDiv)-i)
			break
		}
		fmt.Fprintln(os.Stderr, "DETERMINISM-DIVERGENCE:", d)
	}
	if len(detDiv) > 0 && len(detDiv) <= detTol {
		fmt.Printf("note: %d of %d determinism pairs diverged (tolerance %d; recorded in the evidence file)\n", len(detDiv), detPairs, detTol)
	}
	if len(harnessTrouble) > 0 || len(detDiv) > detTol {
		for _, h := range harnessTrouble {
			fmt.Fprintln(os.Stderr, "HARNESS-TROUBLE:", h)
		}
		if reported == 0 {
			return 2
		}
	}
	if reported > 0 {
		for _, l := range violationLines {
			fmt.Println(l)
		}
		return 1
	}
	if agg.Runs == 0 {
		die2("no run completed")
	}
	return 0
}

func sanitize(s string) string {
	var b strings.Builder
	for _, r := range s {
		if r >= 'a' && r <= 'z' || r >= 'A' && r <= 'Z' || r >= '0' && r <= '9' || r == '-' {
			b.WriteRune(r)
		} else {
			b.WriteByte('_')
		}
	}
	out := b.String()
	if len(out) > 40 {
		out = out[:40]
	}
	return out
}

func writeJSON(path string, v any) {
	data, err := json.MarshalIndent(v, "", " ")
	if err != nil {
		panic(err)
	}
	if err := os.WriteFile(path, append(data, '\n'), 0o644); err != nil {
		die2("cannot write %s: %v", path, err)
	}
}

// loadMeta asks the worker binary for the scenario metadata of a property.
func loadMeta(bin, dir, prop string) propMeta {
	cmd := exec.Command(bin, "-test.run", "^TestMeta$")
	cmd.Dir = dir
	out := filepath.Join(dir, "meta.json")
	cmd.Env = append(os.Environ(), "VERIF_PROP="+prop, "VERIF_OUT="+out)
	if b, err := cmd.CombinedOutput(); err != nil {
		die2("cannot read scenario metadata: %v\n%s", err, b)
	}
	var m propMeta
	if err := readJSON(out, &m); err != nil {
		die2("cannot read scenario metadata: %v", err)
	}
	return m
}

// shrinkCrash handles a worker process killed by a panic on a goroutine of
// the system under test: obtain the decision list by re-running that run with
// an unbuffered decision log, then shrink across processes.
func shrinkCrash(bin, dir string, rf replayFile, sig string, budgetS int) (replayFile, bool) {
	live := filepath.Join(dir, "live.txt")
	// A crash whose last step is a coin inside the code under test (a select
	// with several ready cases, one of which panics: Racy scenarios produce
	// such states on purpose) does not happen in every execution of the run:
	// re-execute the run from its seed a few times before giving up. A
	// deterministic crash reproduces at the first attempt.
	reproduced := false
	attempts := 6
	if sig == wedgeSig {
		attempts = 1 // every attempt costs a full watchdog period
	}
	for attempt := 0; attempt < attempts && !reproduced; attempt++ {
		os.Remove(live)
		w := startWorker(bin, dir, rf.Prop, map[string]string{
			"VERIF_SEED": strconv.FormatUint(rf.Seed, 10), "VERIF_ONLY_RUN": strconv.FormatUint(rf.Run, 10), "VERIF_SCENARIO": rf.Scenario,
			"VERIF_LIVE": live, "VERIF_REPLAY_EVERY": "0",
		}, "crash-rerun")
		var sum workerSummary
		if err := readJSON(w.out, &sum); err == nil {
			continue // did not crash again
		}
		reproduced = deathSignature(w) == sig
	}
	if !reproduced {
		return rf, false
	}
	data, _ := os.ReadFile(live)
	for _, l := range strings.Fields(string(data)) {
		n, _ := strconv.Atoi(l)
		rf.Decisions = append(rf.Decisions, n)
	}
	rf.Original = len(rf.Decisions)
	n := 0
	test := func(dec []int) bool {
		n++
		c := rf
		c.Decisions = dec
		p := filepath.Join(dir, "cand.json")
		writeJSON(p, c)
		// (tag must differ from the candidate file's base name: the worker's
		// output file is <tag>.json, and a crashed worker writes none - nor
		// removes the one a previous candidate left behind)
		os.Remove(filepath.Join(dir, "cand-run.json"))
		_, crashed, s, _ := runReplay(bin, dir, p, false, "cand-run")
		return crashed && s == sig
	}
	if sig == wedgeSig {
		// every candidate would cost a full watchdog period: not shrunk
		rf.Note = fmt.Sprintf("wedge; %d decisions up to the point where the run stopped becoming quiescent; not shrunk", len(rf.Decisions))
		return rf, true
	}
	orig := rf.Decisions
	best, tests := shrink.Shrink(rf.Decisions, test, 400, time.Duration(budgetS)*time.Second)
	if len(best) != len(orig) {
		// an intermittent crash (see above) can slip a candidate through the
		// shrinker that crashes only rarely: keep the shrunk schedule only if
		// it crashes again in at least two of three further replays
		hits := 0
		for k := 0; k < 3; k++ {
			if test(best) {
				hits++
			}
		}
		if hits < 2 {
			rf.Decisions = orig
			rf.Note = fmt.Sprintf("process crash; %d decisions; the shrunk schedule (%d decisions) crashed in only %d of 3 further replays and was dropped", len(orig), len(best), hits)
			return rf, true
		}
	}
	rf.Decisions = best
	rf.Minimized = true
	rf.Note = fmt.Sprintf("process crash; shrunk from %d to %d decisions in %d fresh-process replays", rf.Original, len(best), tests)
	return rf, true
}

func cmdSelftest(props []string) int {
	dir, _ := os.MkdirTemp("", "vcheck-selftest-")
	defer os.RemoveAll(dir)
	bin, _ := build(dir)
	if len(props) == 0 {
		cmd := exec.Command(bin, "-test.run", "^TestMeta$")
		cmd.Dir = dir
		out := filepath.Join(dir, "props.json")
		cmd.Env = append(os.Environ(), "VERIF_PROP=*", "VERIF_OUT="+out)
		cmd.Run()
		readJSON(out, &props)
	}
	seed := seedFromEnv()
	nSeeds := envInt("VERIF_SELFTEST_RUNS", 200)
	bad := 0
	for _, prop := range props {
		var base map[string]string
		pairs := 0
		div := 0
		for rep := 0; rep < 6; rep++ {
			gmp := []string{"1", "4", "16", "1", "4", "16"}[rep]
			w := startWorker(bin, dir, prop, map[string]string{
				"VERIF_SEED": strconv.FormatUint(seed, 10), "VERIF_BUDGET_S": "900", "VERIF_MAXRUNS": strconv.Itoa(nSeeds),
				"VERIF_HASH_SAMPLE": strconv.Itoa(nSeeds), "VERIF_REPLAY_EVERY": "1", "GOMAXPROCS": gmp,
			}, fmt.Sprintf("st-%s-%d", prop, rep))
			var sum workerSummary
			if err := readJSON(w.out, &sum); err != nil {
				fmt.Printf("%s: worker failed: %v\n%s\n", prop, w.err, tail(w.stderr, 30))
				bad++
				break
			}
			div += len(sum.ReplayDiv)
			pairs += sum.ReplayPairs
			for _, d := range sum.ReplayDiv {
				fmt.Println("  divergence (in-process replay):", d)
			}
			if base == nil {
				base = sum.Hashes
				continue
			}
			for k, v := range sum.Hashes {
				if o, ok := base[k]; ok {
					pairs++
					if o != v {
						div++
						fmt.Printf("  divergence: %s run %s: %s vs %s (GOMAXPROCS=%s)\n", prop, k, o, v, gmp)
					}
				}
			}
		}
		fmt.Printf("selftest %s: %d pairs compared, %d divergences\n", prop, pairs, div)
		bad += div
	}
	if bad > 0 {
		return 2
	}
	return 0
}

func sortedKeys(m map[string]string) []string {
	out := make([]string, 0, len(m))
	for k := range m {
		out = append(out, k)
	}
	sort.Strings(out)
	return out
}
