// Package instr generates the build-time overlay for the harness from the
// CURRENT working tree of the repository: (1) every x.Lock()/x.RLock()/
// x.Unlock()/x.RUnlock() call in non-test sources is rewritten to go through
// verifhook, so that lock hand-over becomes a scheduler decision and a mutex
// held across a simulated seam cannot wedge the synctest bubble; (2) the small
// injected files under /verif/overlay are mapped into the repository tree.
// Nothing is written into the repository.
package instr

import (
	"bytes"
	"encoding/json"
	"fmt"
	"go/ast"
	"go/parser"
	"go/printer"
	"go/token"
	"os"
	"path/filepath"
	"strconv"
	"strings"
)

const hookImport = "github.com/libp2p/go-libp2p-kad-dht/verifhook"

type Info struct {
	OverlayJSON string
	LockSites   int
	Files       int
	Sites       []string
}

// ModuleDir is where the harness module's replace directive points: overlay
// keys must be paths below it. Generate reads sources from repo, which is
// normally the same directory; when it is another tree (a scratch worktree
// with a deliberate change, VERIF_REPO), every source file of that tree is
// mapped over the corresponding path below ModuleDir, so the build sees the
// other tree without anything being written to either.
const ModuleDir = "/repo"

func Generate(repo, overlaySrc, outDir string) (*Info, error) {
	info := &Info{}
	replace := map[string]string{}
	gen := filepath.Join(outDir, "gen")
	foreign := filepath.Clean(repo) != ModuleDir
	seen := map[string]bool{}

	err := filepath.Walk(repo, func(path string, fi os.FileInfo, err error) error {
		if err != nil {
			return err
		}
		rel, _ := filepath.Rel(repo, path)
		if fi.IsDir() {
			base := filepath.Base(path)
			if rel != "." && (strings.HasPrefix(base, ".") || base == "testdata" || base == "verifhook") {
				return filepath.SkipDir
			}
			return nil
		}
		if !strings.HasSuffix(path, ".go") || strings.HasSuffix(path, "_test.go") {
			return nil
		}
		seen[rel] = true
		target := filepath.Join(ModuleDir, rel)
		if foreign {
			replace[target] = path
		}
		if strings.HasSuffix(path, ".pb.go") {
			return nil
		}
		src, err := os.ReadFile(path)
		if err != nil {
			return err
		}
		if !bytes.Contains(src, []byte("ock()")) {
			return nil
		}
		out, n, sites, err := rewrite(rel, src)
		if err != nil {
			return fmt.Errorf("%s: %w", rel, err)
		}
		if n == 0 {
			return nil
		}
		path = target
		dst := filepath.Join(gen, rel)
		if err := os.MkdirAll(filepath.Dir(dst), 0o755); err != nil {
			return err
		}
		if err := os.WriteFile(dst, out, 0o644); err != nil {
			return err
		}
		replace[path] = dst
		info.LockSites += n
		info.Files++
		info.Sites = append(info.Sites, sites...)
		return nil
	})
	if err != nil {
		return nil, err
	}
	if foreign {
		// files that exist below ModuleDir but not in the other tree are deleted
		_ = filepath.Walk(ModuleDir, func(path string, fi os.FileInfo, err error) error {
			if err != nil {
				return nil
			}
			rel, _ := filepath.Rel(ModuleDir, path)
			if fi.IsDir() {
				base := filepath.Base(path)
				if rel != "." && (strings.HasPrefix(base, ".") || base == "testdata") {
					return filepath.SkipDir
				}
				return nil
			}
			if strings.HasSuffix(path, ".go") && !strings.HasSuffix(path, "_test.go") && !seen[rel] {
				replace[path] = ""
			}
			return nil
		})
	}

	// injected files
	err = filepath.Walk(overlaySrc, func(path string, fi os.FileInfo, err error) error {
		if err != nil || fi.IsDir() {
			return err
		}
		if !strings.HasSuffix(path, ".go.txt") {
			return nil
		}
		rel, _ := filepath.Rel(overlaySrc, path)
		rel = strings.TrimSuffix(rel, ".txt")
		src, err := os.ReadFile(path)
		if err != nil {
			return err
		}
		dst := filepath.Join(gen, "_inj", rel)
		if err := os.MkdirAll(filepath.Dir(dst), 0o755); err != nil {
			return err
		}
		if err := os.WriteFile(dst, src, 0o644); err != nil {
			return err
		}
		replace[filepath.Join(ModuleDir, rel)] = dst
		return nil
	})
	if err != nil {
		return nil, err
	}

	data, _ := json.MarshalIndent(map[string]any{"Replace": replace}, "", " ")
	info.OverlayJSON = filepath.Join(outDir, "overlay.json")
	if err := os.WriteFile(info.OverlayJSON, data, 0o644); err != nil {
		return nil, err
	}
	return info, nil
}

var lockNames = map[string]string{"Lock": "TryLock", "RLock": "TryRLock"}
var unlockNames = map[string]bool{"Unlock": true, "RUnlock": true}

// pure reports whether evaluating e twice is harmless (no calls, no channel
// receives): the rewrite mentions the receiver expression twice.
func pure(e ast.Expr) bool {
	ok := true
	ast.Inspect(e, func(n ast.Node) bool {
		switch x := n.(type) {
		case *ast.CallExpr:
			ok = false
		case *ast.UnaryExpr:
			if x.Op == token.ARROW {
				ok = false
			}
		}
		return ok
	})
	return ok
}

func rewrite(rel string, src []byte) ([]byte, int, []string, error) {
	fset := token.NewFileSet()
	f, err := parser.ParseFile(fset, rel, src, parser.ParseComments)
	if err != nil {
		return nil, 0, nil, err
	}
	n := 0
	var sites []string
	hook := func(name string) *ast.SelectorExpr {
		return &ast.SelectorExpr{X: ast.NewIdent("verifhook"), Sel: ast.NewIdent(name)}
	}
	ast.Inspect(f, func(node ast.Node) bool {
		call, ok := node.(*ast.CallExpr)
		if !ok || len(call.Args) != 0 {
			return true
		}
		sel, ok := call.Fun.(*ast.SelectorExpr)
		if !ok {
			return true
		}
		if try, isLock := lockNames[sel.Sel.Name]; isLock {
			if !pure(sel.X) {
				return true
			}
			site := rel + ":" + strconv.Itoa(fset.Position(call.Pos()).Line)
			call.Fun = hook("Lock")
			call.Args = []ast.Expr{
				&ast.BasicLit{Kind: token.STRING, Value: strconv.Quote(site)},
				&ast.SelectorExpr{X: sel.X, Sel: ast.NewIdent(sel.Sel.Name)},
				&ast.SelectorExpr{X: sel.X, Sel: ast.NewIdent(try)},
			}
			n++
			sites = append(sites, site)
			return false
		}
		if unlockNames[sel.Sel.Name] {
			call.Fun = hook("Unlock")
			call.Args = []ast.Expr{&ast.SelectorExpr{X: sel.X, Sel: ast.NewIdent(sel.Sel.Name)}}
			n++
			return false
		}
		return true
	})
	if n == 0 {
		return nil, 0, nil, nil
	}
	// add the import
	imp := &ast.ImportSpec{Path: &ast.BasicLit{Kind: token.STRING, Value: strconv.Quote(hookImport)}}
	added := false
	for _, d := range f.Decls {
		if gd, ok := d.(*ast.GenDecl); ok && gd.Tok == token.IMPORT {
			gd.Specs = append(gd.Specs, imp)
			if !gd.Lparen.IsValid() {
				gd.Lparen = gd.Pos()
				gd.Rparen = gd.End()
			}
			added = true
			break
		}
	}
	if !added {
		gd := &ast.GenDecl{Tok: token.IMPORT, Specs: []ast.Spec{imp}}
		f.Decls = append([]ast.Decl{gd}, f.Decls...)
	}
	f.Imports = append(f.Imports, imp)
	var buf bytes.Buffer
	cfg := printer.Config{Mode: printer.UseSpaces | printer.TabIndent, Tabwidth: 8}
	if err := cfg.Fprint(&buf, fset, f); err != nil {
		return nil, 0, nil, err
	}
	return buf.Bytes(), n, sites, nil
}
